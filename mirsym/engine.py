"""mirsym: symbolic execution of rustc MIR text with z3.  See DESIGN.md §2 (E2)."""
import copy, itertools, re, sys, time
import z3
from . import mir
from .mir import MirError, INT_TY, SIGNED, split_top, strip_generics

sys.setrecursionlimit(20000)
_cnt = itertools.count(1)
import os
TRACE = bool(os.environ.get('MIRSYM_TRACE'))


def nid():
    return next(_cnt)


class Inconclusive(Exception):
    pass


# ------------------------------------------------------------------ values
class Obj:
    """aggregate / opaque value.  fields: {(variant|None, idx): value}; discr: None | str (variant name) | int | z3 BV"""
    __slots__ = ('id', 'ty', 'kind', 'fields', 'discr', 'attrs', 'lz')

    def __init__(self, ty='', kind=None, lz=None):
        self.id = nid(); self.ty = ty; self.kind = kind; self.fields = {}; self.discr = None; self.attrs = {}
        self.lz = lz if lz is not None else self.id

    def __repr__(self):
        return f'Obj{self.id}<{self.kind or ""}:{self.ty[:50]}{"" if self.discr is None else " @" + str(self.discr)}>'


class Ref:
    """reference / pointer to a location"""
    __slots__ = ('loc',)

    def __init__(self, loc):
        self.loc = loc

    def __repr__(self):
        return f'Ref{self.loc}'


# locations: ('local', frame_id, name) | ('field', obj, key) | ('elem', obj, i)
def enum(ty, variant, payload=()):
    o = Obj(ty); o.discr = variant
    for i, v in enumerate(payload):
        o.fields[(variant, i)] = v
    return o


def some(v): return enum('Option', 'Some', [v])
def none(): return enum('Option', 'None')
def ok(v=()): return enum('Result', 'Ok', [v])
def err(e=None): return enum('Result', 'Err', [e if e is not None else Obj('Report', kind='error')])
def ready(v): return enum('Poll', 'Ready', [v])


BUILTIN_ENUMS = {
    'Option': ['None', 'Some'], 'Result': ['Ok', 'Err'], 'ControlFlow': ['Continue', 'Break'], 'Poll': ['Ready', 'Pending'],
    'Cow': ['Borrowed', 'Owned'], 'Entry': ['Occupied', 'Vacant'], 'BTreeEntry': ['Vacant', 'Occupied'], 'Either': ['Left', 'Right'], 'Bound': ['Included', 'Excluded', 'Unbounded'],
}


def type_head(ty):
    """`std::result::Result<u64, E>` -> 'std::result::Result'"""
    ty = ty.strip()
    while ty.startswith('&'):
        ty = re.sub(r"^&('\w+ )?(mut )?", '', ty)
    return strip_generics(ty)


class Adts:
    def __init__(self):
        self.tables = []     # list of dicts (crate adt json)
        self.cache = {}

    def add(self, table):
        self.tables.append(table)

    def lookup(self, ty):
        if ty in self.cache:
            return self.cache[ty]
        r = self._lookup(ty)
        self.cache[ty] = r
        return r

    def _lookup(self, ty):
        head = type_head(ty)
        segs = head.split('::')
        last = segs[-1]
        if last == 'Ordering' and ('cmp' in head or '::' not in head):
            return {'kind': 'enum', 'variants': [{'name': 'Less', 'index': 0, 'discr': -1, 'fields': []}, {'name': 'Equal', 'index': 1, 'discr': 0, 'fields': []},
                                                 {'name': 'Greater', 'index': 2, 'discr': 1, 'fields': []}], 'path': 'Ordering'}
        if last in BUILTIN_ENUMS and ('std::' in head or 'core::' in head or '::' not in head):
            return {'kind': 'enum', 'variants': [{'name': n, 'index': i, 'discr': None, 'fields': []} for i, n in enumerate(BUILTIN_ENUMS[last])], 'path': last}
        if '::generated::' in head:
            # an explicitly generated (protobuf) type is asked for: only an exact path match will do
            for t in self.tables:
                for k, v in t.items():
                    if isinstance(v, dict) and v['path'] == head:
                        return v
        cands = []
        for t in self.tables:
            for k, v in t.items():
                if not isinstance(v, dict) or v['path'].split('::')[-1] != last:
                    continue
                if v in cands:
                    continue
                psegs = v['path'].split('::')
                if v['path'] == head or _subseq(segs[:-1], psegs[:-1]) or _subseq(segs[1:-1], psegs[:-1]):
                    cands.append(v)
        def pick(cs):
            if len(cs) == 1:
                return cs[0]
            exact = [v for v in cs if v['path'] == head or v['path'].endswith('::' + head)]
            if len(exact) == 1:
                return exact[0]
            nongen = [v for v in cs if '::generated::' not in v['path']]
            if len(nongen) == 1:
                return nongen[0]
            strong = [v for v in cs if len(segs) > 1 and _subseq(segs[:-1], v['path'].split('::')[:-1])]
            if len(strong) == 1:
                return strong[0]
            return None
        nongen = [v for v in cands if '::generated::' not in v['path']]
        if nongen:
            return pick(cands)
        # no (non-generated) candidate by path: re-exports across crates -> unique non-generated type with that name
        allc = []
        for t in self.tables:
            for k, v in t.items():
                if isinstance(v, dict) and v['path'].split('::')[-1] == last and v not in allc:
                    allc.append(v)
        ng = [v for v in allc if '::generated::' not in v['path']]
        if len(ng) == 1:
            return ng[0]
        if not ng and cands:
            return pick(cands)
        return None

    def variant_index(self, ty, name):
        a = self.lookup(ty)
        if not a or a['kind'] != 'enum':
            return None
        for v in a['variants']:
            if v['name'] == name:
                return v['discr'] if v['discr'] is not None else v['index']
        return None

    def variant_name(self, ty, idx):
        a = self.lookup(ty)
        if not a or a['kind'] != 'enum':
            return None
        for v in a['variants']:
            if (v['discr'] if v['discr'] is not None else v['index']) == idx:
                return v['name']
        return None

    def field_index(self, ty, name, variant=None):
        a = self.lookup(ty)
        if not a:
            return None
        if a['kind'] == 'struct':
            return a['fields'].index(name) if name in a['fields'] else None
        for v in a['variants']:
            if v['name'] == variant:
                return v['fields'].index(name) if name in v['fields'] else None
        return None


class Frame:
    __slots__ = ('id', 'fn', 'locals', 'bb', 'ret_dest', 'ret_bb', 'cont')

    def __init__(self, fn, ret_dest, ret_bb, cont=None):
        self.id = nid(); self.fn = fn; self.locals = {}; self.bb = 'bb0'
        self.ret_dest, self.ret_bb, self.cont = ret_dest, ret_bb, cont


class State:
    def __init__(self):
        self.frames = []; self.pc = []; self.world = {}; self.log = []; self.lazy = {}
        self.kind = None; self.info = None; self.result = None; self.events = []; self.trace = []
        self._memo = None; self.scratch = None; self.roots = {}

    def clone(self):
        memo = {}
        self._memo = None
        s2 = copy.deepcopy(self, memo)
        s2._memo = memo
        return s2

    def tr(self, x):
        """translate an object of the state this one was cloned from into this state's copy"""
        m = getattr(self, '_memo', None)
        if m is None:
            return x
        if isinstance(x, (list, tuple)) and id(x) not in m:
            return type(x)(self.tr(y) for y in x)
        return m.get(id(x), x)

    def frame(self, fid=None):
        if fid is None:
            return self.frames[-1]
        for f in reversed(self.frames):
            if f.id == fid:
                return f
        raise MirError(f'dangling frame {fid}')


class Cont:
    """continuation for model-driven nested calls (deep-copyable data only)"""

    def __init__(self, kind, **data):
        self.kind = kind; self.data = data


# ------------------------------------------------------------------ engine
class Engine:
    def __init__(self, fns, adts, impls, scalar_types=None, hooks=None, max_steps=400000, max_paths=4000, solver_timeout_ms=20000):
        self.fns = fns; self.adts = adts; self.impls = impls
        self.scalar_types = dict(scalar_types or {})
        self.hooks = list(hooks or [])
        self.lazy_vec_len = None      # when set: lazily created Vec<T>/map inputs get exactly this many (lazily created) elements
        self.max_steps, self.max_paths, self.solver_timeout_ms = max_steps, max_paths, solver_timeout_ms
        self.children = {}
        self.by_last = {}
        for n in fns:
            m = re.match(r'^(.*)::\{closure#(\d+)\}$', n)
            if m:
                self.children.setdefault(m.group(1), []).append(n)
            else:
                self.by_last.setdefault(n.split('::')[-1], []).append(n)
        self.stats = {'steps': 0, 'forks': 0, 'queries': 0, 'solver_s': 0.0, 'havoc': {}, 'fns': {}, 'models': {}, 'bound_hits': 0}
        self.resolve_cache = {}
        self.drop_types = set()     # type names whose user Drop impl is executed at `drop(..)` terminators
        self.const_params = {}      # const-generic parameters bound by the obligation, e.g. {'PURE_LOCK': BoolVal(True)}
        from . import models
        self.models = models

    # ---------------- solver
    def feasible(self, pc, extra=None):
        cs = list(pc) + ([extra] if extra is not None else [])
        cs = [z3.simplify(c) for c in cs]
        if any(z3.is_false(c) for c in cs):
            return False
        cs = [c for c in cs if not z3.is_true(c)]
        if not cs:
            return True
        s = z3.Solver(); s.set('timeout', self.solver_timeout_ms); s.add(*cs)
        t0 = time.time(); r = s.check(); self.stats['solver_s'] += time.time() - t0; self.stats['queries'] += 1
        if r == z3.unknown:
            # retry once with a larger budget (machine load); if still undecided, explore the branch: a branch that is in fact infeasible only adds
            # paths whose path condition is unsatisfiable, so every claim on them is discharged by the final (untimed-out) query -- sound, never a pass by default
            s = z3.Solver(); s.set('timeout', self.solver_timeout_ms * 4); s.add(*cs)
            t0 = time.time(); r = s.check(); self.stats['solver_s'] += time.time() - t0; self.stats['queries'] += 1
            if r == z3.unknown:
                self.stats['feasible_unknown'] = self.stats.get('feasible_unknown', 0) + 1
                return True
        return r == z3.sat

    # ---------------- typed fresh values
    def scalar_bits(self, ty):
        t = ty.strip()
        if t in INT_TY:
            return INT_TY[t]
        m = re.match(r'^\[u8; (\d+)(_usize)?\]$', t)
        if m and int(m.group(1)) <= 64:
            return 8 * int(m.group(1))
        h = type_head(t) if not t.startswith(('&', '[', '(', '*')) else None
        if h:
            for k, bits in self.scalar_types.items():
                if h == k or h.endswith('::' + k) or k.endswith('::' + h):
                    return bits
        return None

    def fresh(self, st, ty, hint='v'):
        ty = ty.strip()
        if ty == 'bool':
            return z3.Bool(f'{hint}_{nid()}')
        if ty in ('()', '!'):
            return ()
        b = self.scalar_bits(ty)
        if b is not None:
            return z3.BitVec(f'{hint}_{nid()}', b)
        m = re.match(r"^(&('\w+ )?(mut )?|\*const |\*mut )(.+)$", ty)
        if m:
            inner = m.group(4)
            holder = Obj('&' + inner, kind='cell')
            return Ref(('field', holder, ('*', 0, inner)))
        if ty.startswith('(') and ty.endswith(')'):
            return tuple(self.fresh(st, t, hint) for t in split_top(ty[1:-1]))
        return Obj(ty)

    # ---------------- locations
    def resolve(self, st, p, fid=None):
        """place -> (loc, type hint)"""
        fr = st.frame(fid); k = p[0]
        if k == 'local':
            return ('local', fr.id, p[1]), fr.fn.types.get(p[1], '?')
        if k == 'deref':
            loc, ty = self.resolve(st, p[1], fid)
            v = self.read(st, loc, ty)
            return self.deref_loc(st, v, ty)
        if k == 'field':
            base, variant = p[1], None
            if base[0] == 'downcast':
                variant, base = base[2], base[1]
            loc, ty = self.resolve(st, base, fid)
            o = self.read(st, loc, ty)
            if isinstance(o, tuple):
                return ('tuple', loc, p[2], ty), p[3]
            if z3.is_expr(o):
                if p[2] == 0:      # newtype-as-scalar: field 0 is the scalar itself
                    return loc, ty
                raise MirError(f'field {p[2]} of scalar {o} ({ty})')
            if isinstance(o, Ref) and variant is None and p[2] == 0:    # Pin<&mut T>/Box-like wrapper elided
                return loc, ty
            if not isinstance(o, Obj):
                raise MirError(f'field of {o!r}')
            if variant is not None:
                variant = self.norm_variant(o.ty, variant)
            return ('field', o, (variant, p[2], p[3])), p[3]
        if k == 'downcast':
            return self.resolve(st, p[1], fid)
        if k in ('cindex', 'index'):
            loc, ty = self.resolve(st, p[1], fid)
            o = self.read(st, loc, ty)
            if k == 'cindex':
                i = p[2]
            else:
                iv = self.read(st, ('local', fr.id, p[2]), 'usize')
                iv = z3.simplify(iv)
                if not z3.is_bv_value(iv):
                    raise MirError('symbolic index')
                i = iv.as_long()
            ety = re.sub(r'^\[(.+?)(; \d+(_usize)?)?\]$', r'\1', ty.strip().lstrip('&'))
            if isinstance(o, Obj) and o.kind in ('vec', 'array', 'slice'):
                items = o.attrs['items']
                if k == 'cindex' and p[3]:
                    i = len(items) - i
                if i >= len(items):
                    raise MirError('index out of modelled shape')
                return ('elem', o, i), ety
            if z3.is_bv(o):
                return ('byte', loc, i, ty), 'u8'
            raise MirError(f'index into {o!r}')
        raise MirError(f'place kind {k}')

    def norm_variant(self, ty, v):
        if isinstance(v, int):
            n = self.adts.variant_name(ty, v) if ty else None
            return n if n is not None else v
        return v

    def deref_loc(self, st, v, ty):
        inner_ty = re.sub(r"^(&('\w+ )?(mut )?|\*const |\*mut )", '', ty.strip())
        if isinstance(v, Ref):
            return v.loc, inner_ty
        if isinstance(v, Obj):
            if v.kind in ('box', 'pin', 'arc', 'instrumented'):
                inner = v.fields.get(('in', 0))
                if isinstance(inner, Ref):
                    return inner.loc, inner_ty
                return ('field', v, ('in', 0, inner_ty)), inner_ty
            # lazily typed pointer-like object (Box<T>, Arc<T> of an input): its pointee is a lazy field
            m = re.match(r'^(std::boxed::|alloc::boxed::)?Box<(.+)>$', v.ty) or re.match(r'^(std::sync::|alloc::sync::)?Arc<(.+)>$', v.ty)
            return ('field', v, ('*', 0, m.group(2) if m else inner_ty)), (m.group(2) if m else inner_ty)
        raise MirError(f'deref of {v!r}')

    def read(self, st, loc, ty='?'):
        k = loc[0]
        if k == 'local':
            fr = st.frame(loc[1])
            if loc[2] not in fr.locals:
                fr.locals[loc[2]] = self.fresh(st, fr.fn.types.get(loc[2], ty), loc[2])
            return fr.locals[loc[2]]
        if k == 'field':
            o, key = loc[1], loc[2]
            fk = (key[0], key[1])
            if fk not in o.fields:
                mk = (o.lz, fk)
                if mk in st.lazy:
                    v = st.lazy[mk]
                    v = self.copy_val(v)
                else:
                    v = self.fresh(st, key[2], f'{_short(o.ty)}.{key[0] + "." if isinstance(key[0], str) else ""}{key[1]}')
                    st.lazy[mk] = self.copy_val(v)
                o.fields[fk] = v
            return o.fields[fk]
        if k == 'elem':
            return loc[1].attrs['items'][loc[2]]
        if k == 'tuple':
            return self.read(st, loc[1], loc[3])[loc[2]]
        if k == 'byte':
            bv = self.read(st, loc[1], loc[3]); n = bv.size() // 8
            return z3.Extract(8 * (n - loc[2]) - 1, 8 * (n - loc[2] - 1), bv)
        raise MirError(f'read {loc}')

    def write(self, st, loc, v):
        k = loc[0]
        if k == 'local':
            st.frame(loc[1]).locals[loc[2]] = v
        elif k == 'field':
            loc[1].fields[(loc[2][0], loc[2][1])] = v
        elif k == 'elem':
            loc[1].attrs['items'][loc[2]] = v
        elif k == 'tuple':
            t = list(self.read(st, loc[1], loc[3])); t[loc[2]] = v
            self.write(st, loc[1], tuple(t))
        elif k == 'byte':
            bv = self.read(st, loc[1], loc[3]); n = bv.size() // 8; i = loc[2]
            parts = [z3.Extract(8 * (n - j) - 1, 8 * (n - j - 1), bv) if j != i else v for j in range(n)]
            self.write(st, loc[1], z3.Concat(*parts) if n > 1 else parts[0])
        else:
            raise MirError(f'write {loc}')

    def get(self, st, p, fid=None):
        loc, ty = self.resolve(st, p, fid)
        return self.read(st, loc, ty)

    def set(self, st, p, v, fid=None):
        loc, ty = self.resolve(st, p, fid)
        self.write(st, loc, v)

    def copy_val(self, v):
        """structural copy of an aggregate value (sharing referents)"""
        if isinstance(v, Obj):
            if v.kind in ('coroutine', 'closure', 'vec', 'map', 'box', 'arc', 'world', 'cell', 'iter', 'deque', 'set'):
                if v.kind in ('arc', 'world'):
                    return v
                o = Obj(v.ty, v.kind, v.lz); o.discr = v.discr
                o.fields = {k: self.copy_val(x) for k, x in v.fields.items()}
                o.attrs = {k: ([self.copy_val(y) for y in x] if isinstance(x, list) else x) for k, x in v.attrs.items()}
                return o
            o = Obj(v.ty, v.kind, v.lz); o.discr = v.discr
            o.fields = {k: self.copy_val(x) for k, x in v.fields.items()}
            o.attrs = dict(v.attrs)
            return o
        if isinstance(v, tuple):
            return tuple(self.copy_val(x) for x in v)
        return v

    def deref_val(self, st, v):
        """follow references to the value they point at"""
        n = 0
        while isinstance(v, Ref):
            v = self.read(st, v.loc); n += 1
            if n > 50:
                raise MirError('ref loop')
        return v

    # ---------------- operands
    def operand_type(self, fr, op):
        if op[0] == 'const':
            m = re.match(r'^-?\d+_(\w+)$', op[1])
            return m.group(1) if m else ('bool' if op[1] in ('true', 'false') else '?')
        p = op[1]
        if p[0] == 'local':
            return fr.fn.types.get(p[1], '?')
        if p[0] == 'field':
            return p[3]
        return '?'

    def const(self, st, c):
        m = re.match(r'^(-?\d+)_(\w+)$', c)
        if m and m.group(2) in INT_TY:
            return z3.BitVecVal(int(m.group(1)), INT_TY[m.group(2)])
        if c == 'true':
            return z3.BoolVal(True)
        if c == 'false':
            return z3.BoolVal(False)
        if c == '()':
            return ()
        m = re.match(r"^'(.)'$", c)
        if m:
            return z3.BitVecVal(ord(m.group(1)), 32)
        if c in self.const_params:
            return self.const_params[c]
        mp = re.search(r'::promoted\[(\d+)\]$', c)
        if mp and st.frames:
            name = f'{st.frame().fn.name}::promoted[{mp.group(1)}]'
            if name in self.fns:
                return self.eval_promoted(st, name)
        if re.match(r'^[\w:]+::[A-Z][A-Z0-9_]+$', c) or re.match(r'^[A-Z][A-Z0-9_]+$', c):
            v = self.named_const(c)
            if v is not None:
                return v
        r = self.models.const_model(self, st, c)
        if r is not None:
            return r
        o = Obj('const ' + c, kind='const'); o.attrs['const'] = c
        return o

    def operand(self, st, op):
        k = op[0]
        if k == 'const':
            return self.const(st, op[1])
        if k == 'fnitem':
            o = Obj('fn item', kind='fnitem'); o.attrs['path'] = op[1]
            return o
        v = self.get(st, op[1])
        if k == 'copy' and isinstance(v, (Obj, tuple)):
            return self.copy_val(v)
        return v

    def eval_promoted(self, st, name):
        """promoted constants are straight-line bodies: evaluate bb0 in a temporary frame; a reference to one of its locals is re-homed on the heap"""
        pf = self.fns[name].parse()
        tmp = Frame(pf, None, None); st.frames.append(tmp)
        try:
            blk = pf.blocks['bb0']
            if mir.parse_term(blk[-1])[0] != 'return':
                raise MirError('promoted constant with control flow: ' + name)
            for s_ in blk[:-1]:
                self.stmt(st, s_, tmp)
            v = tmp.locals.get('_0')
            if isinstance(v, Ref) and v.loc[0] == 'local' and v.loc[1] == tmp.id:
                h = Obj('promoted', kind='cell'); h.fields[('*', 0)] = tmp.locals[v.loc[2]]
                v = Ref(('field', h, ('*', 0, pf.types.get(v.loc[2], '?'))))
            return v
        finally:
            st.frames.pop()

    def named_const(self, path):
        """integer constants of the workspace, read from the source: `const NAME: uN = <expr>;` with a unique definition, where <expr> is built from
        integer literals, `+`, `*`, parentheses and other such constants (e.g. `SHA256_DIGEST_LENGTH + 2`)"""
        name = path.split('::')[-1]
        cache = self.__dict__.setdefault('_const_cache', {})
        if name not in cache:
            cache[name] = None          # cycle guard
            import subprocess
            from vlib import snap
            r = subprocess.run(['grep', '-rhoE', rf'const {name}: (u8|u16|u32|u64|u128|usize|i32|i64|i128) = [A-Za-z0-9_ +*():]+;', snap.REPO + '/crates', '--include=*.rs'],
                               capture_output=True, text=True)
            found = set(r.stdout.strip().split('\n')) - {''}
            val = None
            if len(found) == 1:
                m = re.match(r'const \w+: (\w+) = (.+);', found.pop())
                n = self._const_expr(m.group(2))
                if n is not None:
                    val = z3.BitVecVal(n, INT_TY[m.group(1)])
            cache[name] = val
        return cache[name]

    def _const_expr(self, text):
        toks = re.findall(r'[A-Za-z_][A-Za-z0-9_:]*|[0-9][0-9_]*(?:u8|u16|u32|u64|u128|usize|i32|i64|i128)?|[+*()]', text)
        if ''.join(toks).replace(' ', '') != text.replace(' ', ''):
            return None
        pos = [0]

        def atom():
            if pos[0] >= len(toks): raise ValueError
            t = toks[pos[0]]; pos[0] += 1
            if t == '(':
                v = expr()
                if pos[0] >= len(toks) or toks[pos[0]] != ')': raise ValueError
                pos[0] += 1
                return v
            if t[0].isdigit():
                return int(re.sub(r'(u8|u16|u32|u64|u128|usize|i32|i64|i128)$', '', t).replace('_', ''))
            if re.match(r'^[A-Za-z_]', t):
                c = self.named_const(t)
                if c is None: raise ValueError
                return c.as_long()
            raise ValueError

        def term():
            v = atom()
            while pos[0] < len(toks) and toks[pos[0]] == '*':
                pos[0] += 1; v *= atom()
            return v

        def expr():
            v = term()
            while pos[0] < len(toks) and toks[pos[0]] == '+':
                pos[0] += 1; v += term()
            return v
        try:
            v = expr()
            return v if pos[0] == len(toks) else None
        except ValueError:
            return None

    # ---------------- rvalues
    def to_bv(self, v):
        if z3.is_bool(v):
            return z3.If(v, z3.BitVecVal(1, 8), z3.BitVecVal(0, 8))
        return v

    def binop(self, st, op, a, b, ty):
        signed = ty in SIGNED
        if z3.is_bool(a) or z3.is_bool(b):
            if op in ('BitAnd',): return z3.And(a, b)
            if op in ('BitOr',): return z3.Or(a, b)
            if op in ('BitXor', 'Ne'): return z3.Xor(a, b)
            if op == 'Eq': return a == b
            a, b = self.to_bv(a), self.to_bv(b)
        if not (z3.is_bv(a) and z3.is_bv(b)):
            if op in ('Eq', 'Ne') and isinstance(a, tuple) and isinstance(b, tuple) and a == () and b == ():
                return z3.BoolVal(op == 'Eq')
            raise MirError(f'binop {op} on {a!r}, {b!r}')
        if a.size() != b.size():
            if op in ('Shl', 'Shr', 'ShlUnchecked', 'ShrUnchecked'):
                b = z3.ZeroExt(a.size() - b.size(), b) if b.size() < a.size() else z3.Extract(a.size() - 1, 0, b)
            else:
                raise MirError(f'width mismatch {op} {a.size()} {b.size()}')
        n = a.size()
        if op in ('Add', 'AddUnchecked'): return a + b
        if op in ('Sub', 'SubUnchecked'): return a - b
        if op in ('Mul', 'MulUnchecked'): return a * b
        if op == 'Div': return a / b if signed else z3.UDiv(a, b)
        if op == 'Rem': return z3.SRem(a, b) if signed else z3.URem(a, b)
        if op == 'BitAnd': return a & b
        if op == 'BitOr': return a | b
        if op == 'BitXor': return a ^ b
        if op in ('Shl', 'ShlUnchecked'): return a << b
        if op in ('Shr', 'ShrUnchecked'): return (a >> b) if signed else z3.LShR(a, b)
        if op == 'Eq': return a == b
        if op == 'Ne': return a != b
        if op == 'Lt': return (a < b) if signed else z3.ULT(a, b)
        if op == 'Le': return (a <= b) if signed else z3.ULE(a, b)
        if op == 'Gt': return (a > b) if signed else z3.UGT(a, b)
        if op == 'Ge': return (a >= b) if signed else z3.UGE(a, b)
        if op == 'Cmp':
            lt = (a < b) if signed else z3.ULT(a, b)
            return self.ordering(lt, a == b)
        if op == 'AddWithOverflow':
            ovf = z3.Not(z3.And(z3.BVAddNoOverflow(a, b, signed), z3.BVAddNoUnderflow(a, b))) if signed else z3.Not(z3.BVAddNoOverflow(a, b, False))
            return (a + b, ovf)
        if op == 'SubWithOverflow':
            ovf = z3.Not(z3.And(z3.BVSubNoOverflow(a, b), z3.BVSubNoUnderflow(a, b, True))) if signed else z3.ULT(a, b)
            return (a - b, ovf)
        if op == 'MulWithOverflow':
            if signed:
                ovf = z3.Not(z3.And(z3.BVMulNoOverflow(a, b, True), z3.BVMulNoUnderflow(a, b)))
            else:
                ovf = z3.Not(z3.BVMulNoOverflow(a, b, False))
            return (a * b, ovf)
        raise MirError('binop ' + op)

    def ordering(self, lt, eq):
        o = Obj('std::cmp::Ordering'); o.discr = z3.If(lt, z3.BitVecVal(-1, 64), z3.If(eq, z3.BitVecVal(0, 64), z3.BitVecVal(1, 64)))
        return o

    def cast(self, st, v, to, kind, fr, srcop):
        to = to.strip()
        if kind in ('IntToInt',):
            v = self.to_bv(v)
            if not z3.is_bv(v):
                if isinstance(v, Obj):      # enum -> int
                    d = self.discr_value(st, v)
                    v = d
                else:
                    raise MirError(f'IntToInt of {v!r}')
            n, m_ = v.size(), INT_TY.get(to)
            if to == 'bool':
                return v != 0
            if m_ is None:
                raise MirError('cast to ' + to)
            if m_ == n: return v
            if m_ < n: return z3.Extract(m_ - 1, 0, v)
            src_ty = self.operand_type(fr, srcop)
            return z3.SignExt(m_ - n, v) if src_ty in SIGNED else z3.ZeroExt(m_ - n, v)
        if kind in ('PointerCoercion', 'PtrToPtr', 'Transmute', 'PointerExposeProvenance', 'PointerWithExposedProvenance', 'FnPtrToPtr', 'Subtype'):
            if kind == 'Transmute' and z3.is_bv(v) and self.scalar_bits(to) not in (None, v.size()):
                raise MirError('transmute width')
            return v
        raise MirError('cast kind ' + kind)

    def discr_value(self, st, o):
        """discriminant of an enum-like object as BV64 (concrete when known)"""
        if not isinstance(o, Obj):
            raise MirError(f'discriminant of {o!r}')
        d = o.discr
        if d is None:
            if o.kind == 'const':
                raise MirError('discriminant of opaque const ' + o.attrs.get('const', ''))
            if (o.lz, 'discr') not in st.lazy:
                d = z3.BitVec(f'discr_{_short(o.ty)}_{nid()}', 64)
                st.lazy[(o.lz, 'discr')] = d
                a = self.adts.lookup(o.ty) if o.ty else None
                if a and a['kind'] == 'enum' and a['variants']:
                    st.pc.append(z3.Or(*[d == z3.BitVecVal(v['discr'] if v['discr'] is not None else v['index'], 64) for v in a['variants']]))
            o.discr = d = st.lazy[(o.lz, 'discr')]
        if isinstance(d, str):
            i = self.adts.variant_index(o.ty, d)
            if i is None:
                raise MirError(f'unknown ADT for discriminant: {o.ty}::{d}')
            return z3.BitVecVal(i, 64)
        if isinstance(d, int):
            return z3.BitVecVal(d, 64)
        return d

    def rvalue(self, st, rv, fr, dest_ty):
        k = rv[0]
        if k == 'use':
            return self.operand(st, rv[1])
        if k == 'ref':
            loc, ty = self.resolve(st, rv[1])
            return Ref(loc)
        if k == 'binop':
            a, b = self.operand(st, rv[2]), self.operand(st, rv[3])
            ty = self.operand_type(fr, rv[2])
            if ty == '?' and rv[2][0] != 'const':
                ty = self.operand_type(fr, rv[3])
            return self.binop(st, rv[1], a, b, ty)
        if k == 'unop':
            a = self.operand(st, rv[2])
            if rv[1] == 'Not':
                return z3.Not(a) if z3.is_bool(a) else ~a
            if rv[1] == 'Neg':
                return -a
            if rv[1] == 'PtrMetadata':
                t = self.deref_val(st, a)
                if isinstance(t, Obj) and 'items' in t.attrs:
                    return z3.BitVecVal(len(t.attrs['items']), 64)
                if z3.is_bv(t) and t.size() % 8 == 0:
                    return z3.BitVecVal(t.size() // 8, 64)
                if isinstance(t, Obj) and t.kind is None and not t.fields:
                    # a lazily created buffer whose contents were never inspected: only its length is observable (same symbol as Vec::len / Bytes::len use)
                    if 'symlen' not in t.attrs:
                        t.attrs['symlen'] = z3.BitVec(f'len_{t.lz}', 64)
                    return t.attrs['symlen']
                raise MirError(f'PtrMetadata of unshaped value {t!r}')
        if k == 'cast':
            return self.cast(st, self.operand(st, rv[1]), rv[2], rv[3], fr, rv[1])
        if k == 'discr':
            o = self.get(st, rv[1])
            d = self.discr_value(st, o)
            bits = INT_TY.get(dest_ty.strip(), 64)
            if bits != 64:
                d = z3.Extract(bits - 1, 0, d)
            return d
        if k == 'len':
            o = self.get(st, rv[1])
            if isinstance(o, Obj) and 'items' in o.attrs:
                return z3.BitVecVal(len(o.attrs['items']), 64)
            if z3.is_bv(o):
                return z3.BitVecVal(o.size() // 8, 64)
            raise MirError('Len of unshaped value')
        if k == 'tuple':
            return tuple(self.operand(st, x) for x in rv[1])
        if k == 'array':
            vals = [self.operand(st, x) for x in rv[1]]
            if vals and all(z3.is_bv(v) and v.size() == 8 for v in vals) and len(vals) <= 64:
                return z3.Concat(*vals) if len(vals) > 1 else vals[0]
            o = Obj(dest_ty, kind='array'); o.attrs['items'] = vals
            return o
        if k == 'repeat':
            v = self.operand(st, rv[1]); m = re.match(r'^(\d+)', rv[2].replace('const ', ''))
            n = int(m.group(1))
            if z3.is_bv(v) and v.size() == 8 and n <= 64:
                return z3.Concat(*[v] * n) if n > 1 else v
            o = Obj(dest_ty, kind='array'); o.attrs['items'] = [self.copy_val(v) for _ in range(n)]
            return o
        if k == 'closure':
            kind = 'closure' if rv[1] == 'closure' else 'coroutine'
            o = Obj(rv[2], kind=kind); o.discr = 0 if kind == 'coroutine' else None
            o.attrs['span'] = rv[2]; o.attrs['parent'] = fr.fn.name; o.attrs['ckind'] = rv[1]
            for i, (name, op) in enumerate(rv[3]):
                o.fields[(None, i)] = self.operand(st, op)
            o.attrs['capnames'] = tuple(n for n, _ in rv[3])
            return o
        if k == 'adt':
            return self.adt(st, rv, dest_ty)
        raise MirError('rvalue ' + k)

    def adt(self, st, rv, dest_ty):
        path, fields, shape = rv[1], rv[2], rv[3]
        head = strip_generics(path)
        vals = [self.operand(st, op) for _, op in fields]
        # enum variant?  `Type::Variant` where Type is an enum in the ADT tables, or builtin
        segs = head.split('::')
        if len(segs) >= 2:
            ety = '::'.join(segs[:-1]); a = self.adts.lookup(ety)
            if a and a['kind'] == 'enum' and any(v['name'] == segs[-1] for v in a['variants']):
                o = Obj(dest_ty if dest_ty not in ('?', '') else ety); o.discr = segs[-1]
                for i, v in enumerate(vals):
                    o.fields[(segs[-1], i)] = v
                return o
        if len(segs) == 1 and dest_ty not in ('?', ''):
            # variant printed without its enum path (`Flag(move _2)`): the destination type says which enum
            a = self.adts.lookup(dest_ty)
            if a and a['kind'] == 'enum' and any(v['name'] == segs[0] for v in a['variants']):
                o = Obj(dest_ty); o.discr = segs[0]
                for i, v in enumerate(vals):
                    o.fields[(segs[0], i)] = v
                return o
        a = self.adts.lookup(head)
        if a is None and shape == 'unit' and len(segs) >= 2:
            # unknown enum's unit variant (foreign crate): keep the name; discriminant() on it will be inconclusive
            o = Obj('::'.join(segs[:-1])); o.discr = segs[-1]
            return o
        if a is None and len(segs) >= 2 and segs[-1][:1].isupper() and segs[-2][:1].isupper():
            o = Obj('::'.join(segs[:-1])); o.discr = segs[-1]
            for i, v in enumerate(vals):
                o.fields[(segs[-1], i)] = v
            return o
        b = self.scalar_bits(head)
        if b is not None and len(vals) == 1 and z3.is_bv(vals[0]) and vals[0].size() == b:
            return vals[0]
        o = Obj(dest_ty if dest_ty not in ('?', '') else head)
        for i, v in enumerate(vals):
            o.fields[(None, i)] = v
        if shape == 'named':
            o.attrs['field_names'] = tuple(n for n, _ in fields)
        return o

    # ---------------- statements
    def stmt(self, st, s, fr):
        ps = mir.parse_stmt(s)
        k = ps[0]
        if k == 'nop':
            return
        if k == 'assign':
            dest = ps[1]
            dty = fr.fn.types.get(dest[1], '?') if dest[0] == 'local' else (dest[3] if dest[0] == 'field' else '?')
            v = self.rvalue(st, ps[2], fr, dty)
            self.set(st, dest, v)
            return
        if k == 'setdiscr':
            o = self.get(st, ps[1])
            o.discr = self.norm_variant(o.ty, ps[2]) if o.kind != 'coroutine' else ps[2]
            return
        if k == 'assume':
            c = self.operand(st, ps[1]); st.pc.append(c); return
        raise MirError('stmt ' + k)

    # ---------------- name resolution
    def impl_self(self, name):
        m = re.search(r'<impl at ([^>]+)>', name)
        return self.impls.info(m.group(1)) if m else (None, None)

    def resolve_fn(self, callee, nargs, caller_crate=None):
        """caller_crate: crate of the function containing the call (its own items are printed without the crate prefix)"""
        pref = getattr(self, 'crate_prefixes', {}).get(caller_crate) if caller_crate else None
        key = (callee, nargs, pref)
        if key in self.resolve_cache:
            return self.resolve_cache[key]
        r = None
        if pref:
            r = self._resolve_fn(callee, nargs, only_prefix=pref)
        if r is None:
            r = self._resolve_fn(callee, nargs)
        if r is None:
            # fn item nested inside a method: `Type::method::nested` -> `<impl at ..>::method::nested`
            c = strip_generics_tail(callee)
            segs = c.split('::')
            if len(segs) >= 3 and not c.startswith('<'):
                outer = self._resolve_fn('::'.join(segs[:-1]), -1) if '::'.join(segs[:-1]) != c else None
                if outer and (outer + '::' + segs[-1]) in self.fns:
                    r = outer + '::' + segs[-1]
        self.resolve_cache[key] = r
        return r

    def _resolve_fn(self, callee, nargs, only_prefix=None):
        c = strip_generics_tail(callee)
        if only_prefix is None and c in self.fns:
            return c
        if only_prefix is not None:
            if only_prefix + c in self.fns:
                return only_prefix + c
            by_last = {k: [n for n in v if n.startswith(only_prefix)] for k, v in ((c.split('::')[-1], self.by_last.get(c.split('::')[-1], [])),)}
        else:
            by_last = self.by_last
        # <T as Trait>::method
        m = re.match(r'^<(.+) as (.+)>::(\w+)$', c)
        if m:
            selfty, trait, meth = type_head(m.group(1)).split('::')[-1], strip_generics(m.group(2)), m.group(3)
            tlast = trait.split('::')[-1]
            cands = []
            for n in by_last.get(meth, []):
                if '<impl at' in n:
                    tr, ty = self.impl_self(n)
                    if tr == tlast and ty == selfty:
                        cands.append(n)
            if len(cands) == 1:
                return cands[0]
            if len(cands) > 1:
                c2 = [n for n in cands if len(self.fns[n].parse().params) == nargs]
                if len(c2) == 1:
                    return c2[0]
                # select by the trait's generic argument (From<&T> vs From<T> ...) and by reference-ness of Self
                targ = mir._norm_arg(m.group(2)[m.group(2).index('<') + 1:m.group(2).rindex('>')]) if '<' in m.group(2) else ''
                sref = mir._norm_arg(m.group(1))
                c3 = []
                for n in cands:
                    sp = re.search(r'<impl at ([^>]+)>', n).group(1)
                    self.impls.info(sp)
                    if self.impls.trait_args.get(sp, '') == targ and self.impls.self_text.get(sp, sref).startswith('&') == sref.startswith('&'):
                        c3.append(n)
                if len(c3) == 1:
                    return c3[0]
                if not c3 and targ:
                    return None          # no impl for this trait argument in the dumps: a foreign impl
                raise MirError(f'ambiguous impl for {callee}: {cands[:4]}')
            # provided trait method
            cands = [n for n in by_last.get(meth, []) if '<impl at' not in n and suffix_match(n, trait + '::' + meth)]
            if len(cands) == 1:
                return cands[0]
            return None
        # Type::method (inherent) or module::function
        segs = strip_generics(c).split('::')
        meth = segs[-1]
        cands = [n for n in by_last.get(meth, []) if '<impl at' not in n and suffix_match(n, strip_generics(c))]
        if len(cands) == 1:
            return cands[0]
        if len(segs) >= 2:
            ty = segs[-2]
            cands = []
            for n in by_last.get(meth, []):
                if '<impl at' in n:
                    tr, t = self.impl_self(n)
                    if tr is None and t == ty:
                        cands.append(n)
            if len(cands) == 1:
                return cands[0]
            if len(cands) > 1:
                c2 = [n for n in cands if len(self.fns[n].parse().params) == nargs]
                if len(c2) == 1:
                    return c2[0]
                # same type name in several modules: the impl lives in the module the (trimmed) type path names
                modpath = '::'.join(segs[:-2])
                pre = lambda n: (n[len(only_prefix):] if only_prefix and n.startswith(only_prefix) else n).split('<impl at')[0].rstrip(':')
                c3 = [n for n in cands if pre(n) == modpath or (modpath and pre(n).endswith('::' + modpath))]
                if len(c3) == 1:
                    return c3[0]
                raise MirError(f'ambiguous inherent method {callee}: {cands[:4]}')
        return None

    def coroutine_body(self, fut):
        parent, span, ck = fut.attrs['parent'], fut.attrs['span'], fut.attrs.get('ckind')
        kids = self.children.get(parent, [])
        cands = []
        for n in kids:
            pt = self.fns[n].parse().ptypes
            if not pt:
                continue
            if ck == 'asyncfn':
                if '{async fn body of' in pt[0]:
                    cands.append(n)
            elif span in pt[0]:
                cands.append(n)
        if not cands:
            cands = [n for n in kids if self.fns[n].parse().ptypes and '{async fn body of' in self.fns[n].parse().ptypes[0]]
        if len(cands) != 1:
            raise MirError(f'coroutine body for {span} under {parent}: {cands}')
        return cands[0]

    def closure_body(self, clo):
        parent, span = clo.attrs['parent'], clo.attrs['span']
        cands = [n for n in self.children.get(parent, []) if self.fns[n].parse().ptypes and span in self.fns[n].parse().ptypes[0]]
        if len(cands) != 1:
            raise MirError(f'closure body for {span} under {parent}: {cands}')
        return cands[0]

    def closure_from_type(self, ty_text, parent):
        """ZeroSized closure constants: `const ZeroSized: {closure@span}`"""
        m = re.search(r'\{closure@(.+?)\}', ty_text)
        if not m:
            return None
        o = Obj(m.group(1), kind='closure'); o.attrs['span'] = m.group(1); o.attrs['parent'] = parent; o.attrs['ckind'] = 'closure'
        return o

    def drop_target(self, st, place_text):
        """user Drop impl to run for `drop(place)` (only for the types the obligation opted into via ex.drop_types)"""
        try:
            p = mir.parse_place(place_text)
            loc, ty = self.resolve(st, p)
            fr = st.frame()
            if loc[0] == 'local' and loc[2] not in st.frame(loc[1]).locals:
                return None
            v = self.read(st, loc, ty)
        except MirError:
            return None
        if not isinstance(v, Obj) or v.kind is not None or v.attrs.get('dropped'):
            return None
        tyname = type_head(v.ty or ty).split('::')[-1]
        if tyname not in self.drop_types:
            return None
        if not hasattr(self, '_drop_impls'):
            self._drop_impls = {}
            for n in self.by_last.get('drop', []):
                if '<impl at' in n:
                    tr, t = self.impl_self(n)
                    if tr == 'Drop':
                        self._drop_impls[t] = n
        fname = self._drop_impls.get(tyname)
        if not fname:
            return None
        v.attrs['dropped'] = True
        return fname, Ref(loc)

    # ---------------- calls
    def push(self, st, fname, args, dest, nxt, cont=None, fn=None):
        if fn is None:
            fn = self.fns[fname].parse()
            self.stats['fns'][fname] = fn
        nf = Frame(fn, dest, nxt, cont)
        if len(args) != len(fn.params):
            raise MirError(f'arity mismatch calling {fname}: {len(args)} vs {len(fn.params)}')
        for p, a in zip(fn.params, args):
            nf.locals[p] = a
        st.frames.append(nf)
        if len(st.frames) > 400:
            raise Inconclusive('call depth')

    def call_closure(self, st, clo, args, dest, nxt, cont=None, by_ref=True):
        """invoke closure object `clo` with argument list `args` (already-evaluated values)"""
        clo_v = self.deref_val(st, clo)
        if isinstance(clo_v, Obj) and clo_v.kind == 'fnitem':
            tr = trampoline(clo_v.attrs['path'], len(args))
            self.push(st, None, list(args), dest, nxt, cont, fn=tr)
            return
        if not isinstance(clo_v, Obj) or clo_v.kind != 'closure':
            raise MirError(f'not a closure: {clo_v!r}')
        body = self.closure_body(clo_v)
        fn = self.fns[body].parse()
        holder = Obj('closure-holder', kind='cell'); holder.fields[('*', 0)] = clo_v
        selfarg = Ref(('field', holder, ('*', 0, '?'))) if fn.ptypes[0].startswith('&') else clo_v
        self.push(st, body, [selfarg] + list(args), dest, nxt, cont)

    def havoc(self, st, callee, args, ret_ty):
        key = re.sub(r'<.*', '', callee)[:100] if not callee.startswith('<') else callee[:100]
        self.stats['havoc'][key] = self.stats['havoc'].get(key, 0) + 1
        st.events.append(('havoc', callee[:160]))
        v = self.fresh(st, ret_ty, 'havoc')
        if isinstance(v, Obj):
            v.attrs['havoc'] = callee[:100]
        return v

    def deliver(self, st, dest, val, nxt, work, keep=None):
        """hand a model result to state st: value | PUSHED | Diverge | nested alts.  True if st keeps running."""
        if val is PUSHED:
            return True
        if isinstance(val, Diverge):
            st.kind = val.kind; st.info = val.msg
            return False
        if isinstance(val, list):
            return self.finish_alts(st, dest, val, nxt, work, keep)
        if nxt is None:
            st.kind = 'diverge'; st.info = 'call without return edge'
            return False
        self.set(st, dest, val); st.frame().bb = nxt
        return True

    def finish_alts(self, st, dest, alts, nxt, work, keep=None):
        """alts: [(cond|None, value | callable(s2)->value/PUSHED/Diverge/alts, effect(s2)|None)].
        Callables run on the (possibly cloned) state s2 and must translate captured objects with s2.tr(x)."""
        live = []
        if len(alts) > 1:
            fk = self.stats.setdefault('forksites', {}); fr_ = st.frames[-1]; key = f'{fr_.fn.name[-70:]}:{fr_.bb} call {fr_.fn.blocks[fr_.bb][-1][:70]}'
            fk[key] = fk.get(key, 0) + 1
        for a in alts:
            cond = a[0]
            if cond is not None:
                cond = z3.simplify(cond)
                if z3.is_false(cond):
                    continue
                if z3.is_true(cond):
                    cond = None
                elif not self.feasible(st.pc, cond):
                    continue
            live.append((cond, a))
        if not live:
            st.kind = 'infeasible'
            return False
        st.scratch = keep
        states = [st.clone() for _ in live[:-1]] + [st]
        st._memo = None
        cont_here = False
        for s2, (cond, a) in zip(states, live):
            if cond is not None:
                s2.pc.append(cond)
            s2.scratch = None
            val = a[1](s2) if callable(a[1]) else (s2.tr(a[1]) if s2 is not st else a[1])
            if len(a) > 2 and a[2]:
                a[2](s2)
            alive = self.deliver(s2, dest, val, nxt, work, keep=None)
            s2._memo = None
            if s2 is st:
                cont_here = alive
            else:
                work.append(s2); self.stats['forks'] += 1
        return cont_here

    def do_call(self, st, term, work):
        """returns True to continue with st, False if st was consumed (forked / ended)"""
        _, dest, callee, argops, nxt = term
        fr = st.frame()
        args = [self.operand(st, a) for a in argops]
        for i, (a, op) in enumerate(zip(args, argops)):
            if isinstance(a, Obj) and a.kind == 'const' and 'ZeroSized' in a.attrs.get('const', '') and '{closure@' in a.attrs['const']:
                args[i] = self.closure_from_type(a.attrs['const'], fr.fn.name)
        ret_ty = fr.fn.types.get(dest[1], '?') if dest[0] == 'local' else (dest[3] if dest[0] == 'field' else '?')
        ctx = CallCtx(self, st, callee, args, dest, nxt, work, ret_ty)
        stripped = strip_generics_tail(callee)
        for rx, h in self.hooks:
            if rx.search(callee) or (stripped != callee and rx.search(stripped)):
                r = h(ctx)
                if r is not None:
                    return self.apply(ctx, r)
        r = self.models.dispatch(ctx)
        if r is not None:
            return self.apply(ctx, r)
        cc = fr.fn.crate
        tgt = self.resolve_fn(callee, len(args), cc)
        if not tgt:
            m = re.match(r'^<([A-Z]\w{0,12}) as (.+)>::(\w+)', strip_generics_tail(callee))
            if m and args:
                recv = self.deref_val(st, args[0])
                rty = type_head(recv.ty).split('::')[-1] if isinstance(recv, Obj) and recv.ty else None
                if rty:
                    tgt = self.resolve_fn(f'<{rty} as {m.group(2)}>::{m.group(3)}', len(args), cc)
        if tgt:
            self.push(st, tgt, args, dest, nxt)
            return True
        v = self.havoc(st, callee, args, ret_ty)
        return self.apply(ctx, [(None, v)])

    def apply(self, ctx, r):
        return self.deliver(ctx.st, ctx.dest, r if isinstance(r, (list, Diverge)) or r is PUSHED else [(None, r)], ctx.nxt, ctx.work, keep=(ctx.args, ctx.keep))

    # ---------------- main loop
    def run(self, st):
        done, work = [], [st]
        while work:
            st = work.pop()
            if len(done) + len(work) > self.max_paths:
                top = sorted(self.stats.get('forksites', {}).items(), key=lambda kv: -kv[1])[:8]
                raise Inconclusive('path budget exhausted; top fork sites: ' + '; '.join(f'{v}x {k}' for k, v in top))
            try:
                if st.kind is None:
                    self.run_path(st, work)
            except MirError as e:
                fr = st.frames[-1] if st.frames else None
                st.kind = 'abort'; st.info = f'{e} @ {fr.fn.name if fr else "?"}:{fr.bb if fr else ""}'
            if st.kind is not None:
                done.append(st)
        return done

    def run_path(self, st, work):
        while True:
            self.stats['steps'] += 1
            if self.stats['steps'] > self.max_steps:
                raise Inconclusive('step budget exhausted')
            fr = st.frame()
            stmts = fr.fn.blocks[fr.bb]
            if TRACE:
                print('  ' * min(len(st.frames), 30) + f'{fr.fn.name[-50:]}:{fr.bb} | {stmts[-1][:130]}', file=sys.stderr)
            for s in stmts[:-1]:
                self.stmt(st, s, fr)
            term = mir.parse_term(stmts[-1])
            k = term[0]
            if k == 'goto':
                fr.bb = term[1]; continue
            if k == 'drop':
                if self.drop_types:
                    tgt = self.drop_target(st, term[1])
                    if tgt is not None:
                        fname, ref = tgt
                        fr.bb = term[2]
                        self.push(st, fname, [ref], ('local', '_verif_drop_unit'), term[2])
                        continue
                fr.bb = term[2]; continue
            if k == 'return':
                rv = fr.locals.get('_0', ())
                if '_0' not in fr.locals and fr.fn.ret.strip() not in ('()', '!'):
                    rv = self.read(st, ('local', fr.id, '_0'), fr.fn.ret)
                st.frames.pop()
                if fr.cont is not None:
                    kind, r = self.models.resume(self, st, fr.cont, rv, work)
                    ctx = CallCtx(self, st, '<resume>', [], fr.ret_dest, fr.ret_bb, work, '?')
                    ctx.keep = (fr.cont, rv)
                    if self.apply(ctx, [(None, r)] if kind == 'value' else r):
                        continue
                    return
                if not st.frames:
                    st.result = rv; st.kind = 'return'; return
                self.set(st, fr.ret_dest, rv); st.frame().bb = fr.ret_bb
                continue
            if k == 'switch':
                v = self.operand(st, term[1])
                v = z3.simplify(self.to_bv(v))
                arms, other = term[2], term[3]
                if z3.is_bv_value(v):
                    val = v.as_long()
                    tgt = None
                    for kk, tb in arms:
                        if kk == val or (kk - val) % (1 << v.size()) == 0:
                            tgt = tb
                    fr.bb = tgt if tgt is not None else other
                    if fr.bb is None:
                        st.kind = 'unreachable'; return
                    continue
                taken, live = [], []
                for kk, tb in arms:
                    cnd = v == z3.BitVecVal(kk, v.size()); taken.append(cnd)
                    if self.feasible(st.pc, cnd):
                        live.append((cnd, tb))
                if other:
                    cnd = z3.Not(z3.Or(taken)) if taken else z3.BoolVal(True)
                    if self.feasible(st.pc, cnd):
                        live.append((cnd, other))
                if not live:
                    st.kind = 'infeasible'; return
                if len(live) > 1:
                    fk = self.stats.setdefault('forksites', {}); key = f'{fr.fn.name[-70:]}:{fr.bb} switch {stmts[-1][:60]}'
                    fk[key] = fk.get(key, 0) + 1
                for i, (cnd, tb) in enumerate(live):
                    s2 = st if i == len(live) - 1 else st.clone()
                    s2.pc.append(cnd); s2.frame().bb = tb
                    if s2 is not st:
                        work.append(s2); self.stats['forks'] += 1
                continue
            if k == 'assert':
                neg, cond, msg, nxt = term[1], self.operand(st, term[2]), term[3], term[4]
                good = z3.Not(cond) if neg else cond
                good = z3.simplify(good)
                if z3.is_true(good):
                    fr.bb = nxt; continue
                if self.feasible(st.pc, z3.Not(good)):
                    s2 = st.clone(); s2.pc.append(z3.Not(good)); s2.kind = 'panic'; s2.info = f'assert {msg} @ {fr.fn.name}:{fr.bb}'
                    work.append(s2)
                if not self.feasible(st.pc, good):
                    st.kind = 'infeasible'; return
                st.pc.append(good); fr.bb = nxt; continue
            if k == 'call':
                if not self.do_call(st, term, work):
                    return
                continue
            if k == 'unreachable':
                st.kind = 'unreachable'; st.info = f'{fr.fn.name}:{fr.bb}'; return
            if k == 'resume':
                st.kind = 'unwind'; return
            raise MirError('terminator ' + k)

    # ---------------- convenience for obligations
    def start(self, fname, args, world=None, roots=None):
        """roots: named handles on input objects; read them back from each finished path as p.roots[name] (paths are clones)"""
        st = State()
        if world:
            st.world.update(world)
        st.roots.update(roots or {})
        st.roots['args'] = args
        self.push(st, fname, args, None, None)
        return st

    def poll_to_completion(self, st_or_paths):
        """given finished paths whose result is a future object, poll each once (awaits never pend) and return the new paths"""
        out = []
        for p in st_or_paths:
            if p.kind != 'return':
                out.append(p); continue
            fut = p.result
            p.kind = None
            drv = DRIVER_POLL
            fr = Frame(drv, None, None); fr.locals['_1'] = fut; fr.locals['_2'] = Obj('Context')
            p.frames.append(fr)
            out += self.run(p)
        return out

    def find(self, pattern, must=True):
        rx = re.compile(pattern)
        c = [n for n in self.fns if rx.search(n)]
        if len(c) != 1:
            if must:
                raise Inconclusive(f'target function pattern {pattern!r} matched {len(c)} functions: {c[:5]}')
            return None
        return c[0]


class CallCtx:
    def __init__(self, ex, st, callee, args, dest, nxt, work, ret_ty):
        self.ex, self.st, self.callee, self.args, self.dest, self.nxt, self.work, self.ret_ty = ex, st, callee, args, dest, nxt, work, ret_ty
        self.keep = None
        self.name = strip_generics_tail(callee)


class Diverge:
    def __init__(self, kind, msg=''):
        self.kind, self.msg = kind, msg


PUSHED = object()


def _mk_driver():
    f = mir.Fn('verif::driver_poll', '_1: Fut, _2: Ctx', 'Poll', 'verif')
    f.lines = ['    bb0: {', '        _0 = <Fut as Future>::poll(move _1, move _2) -> [return: bb1, unwind continue];', '    }', '    bb1: {', '        return;', '    }']
    return f.parse()


DRIVER_POLL = _mk_driver()
_TRAMPOLINES = {}


def trampoline(callee, nargs):
    """synthetic frame that performs one call to `callee` (used to invoke fn items through the normal dispatch with a continuation)"""
    key = (callee, nargs)
    if key not in _TRAMPOLINES:
        ps = ', '.join(f'_{i + 1}: A{i}' for i in range(nargs))
        f = mir.Fn(f'verif::trampoline<{callee}>', ps, '?', 'verif')
        args = ', '.join(f'move _{i + 1}' for i in range(nargs))
        f.lines = ['    bb0: {', f'        _0 = {callee}({args}) -> [return: bb1, unwind continue];', '    }', '    bb1: {', '        return;', '    }']
        _TRAMPOLINES[key] = f.parse()
    return _TRAMPOLINES[key]


def _subseq(a, b):
    """is list a a subsequence of list b (re-exports skip private modules; trimmed paths drop leading segments)"""
    it = iter(b)
    return all(x in it for x in a)


def suffix_match(name, pat):
    """trimmed-path agreement: one is a `::`-boundary suffix of the other; a single-segment definition name only matches a single-segment callee"""
    if name == pat or name.endswith('::' + pat):
        return True
    return '::' in name and pat.endswith('::' + name)


def strip_generics_tail(callee):
    """drop turbofish groups `::<..>` anywhere but keep `<T as Trait>` / `<impl at ..>` heads"""
    out, i, n = [], 0, len(callee)
    while i < n:
        if callee.startswith('::<', i):
            depth, j = 0, i + 2
            while j < n:
                if callee[j] == '<':
                    depth += 1
                elif callee[j] == '>' and callee[j - 1] not in '-=':
                    depth -= 1
                    if depth == 0:
                        break
                j += 1
            i = j + 1
            continue
        out.append(callee[i]); i += 1
    return ''.join(out)


def _short(ty):
    return re.sub(r'[^\w]', '', type_head(ty).split('::')[-1])[:20] or 'o'
